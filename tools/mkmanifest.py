#!/usr/bin/env python3
"""Regenerates MANIFEST.json from the table below (one entry per claimed property)."""
import json, os

VERIF = os.path.dirname(os.path.dirname(os.path.abspath(__file__)))
TRUST = ("Trusted: Coq 8.16.1 kernel (vm_compute used, native_compute not), extraction with ExtrOcamlBasic only, "
         "OCaml glue (ocaml/*.ml), Python harness and generators, C++ driver; Print Assumptions of every exported "
         "theorem is recorded in the evidence (all closed under the global context unless stated). ")

CLAIMS = {
 "C01": dict(
  text="Coq theorems: (1) the byte-exact model of StringDictionaryPFC (constructor, getHeader, decodeNextString, locateBucket, locate, "
       "extract) equals the abstract specification for EVERY valid string set, bucket size, query and id (pfc_locate_spec, "
       "pfc_extract_spec, round trip both ways); (2) double hashing as used by the four hash kinds finds every inserted key in the cell "
       "insert chose and IDs (rank of the occupied cell) are a bijection onto [1,n] (dh_search_inserted, dh_id_bijection, parametric in "
       "the hash values) and, end to end, HASHRPDAC / HASHRPF (all three load options) / HASHRPDACBlocks answer like the specification over "
       "a permutation of S (hashrpdac_spec, hashrpf_spec, hashrpdac_blocks_spec, for every object passing the verified checker); (3) the "
       "bit-exact RPFC model (Re-Pair packed internal strings), RPDAC (compare-while-expanding binary search) and the FM-index model equal "
       "the specification (rpfc_locate_spec/rpfc_extract_spec, rpdac_*_spec, fm_*_spec, each for every object certified by its verified "
       "checker); (4) XBW: over the arrays dumped from the loaded object, certified by the verified checker xbw_check against the trie computed "
       "in Coq from S, locate (every pattern, incl. the empty one) and extract (every id) equal the specification over the explicit ID order "
       "(reversed-string order) and are mutually inverse (C01_xbw_member_round_trip, C01_xbw_id_round_trip); (5) HTFC: the bit-exact model of "
       "the LOADED object (chunked decoding table, decodeString protocol, encoded-header binary search) answers extract / locate like the "
       "specification for every object certified by the verified checkers htfc_check / htfc_check2 (C01_htfc_extract_spec, C02_htfc_locate_spec, "
       "C01_htfc_roundtrip), the same for HHTFC (two-table variant, C01_hhtfc_*) and for HASHHF in all three hash layouts (Huffman-coded strings "
       "behind the double-hashing table: C01_hashhf_spec, C01_hashhf_roundtrip); (6) the abstract specification "
       "itself is a bijection [1,n] <-> S. Tie: all 13 kinds x parameters x "
       "{fresh, reloaded} compared with the extracted specification on every id and member; PFC additionally at layout level "
       "(text bytes, offsets) and query level against the extracted concrete model.",
  note="PFC is proved from the constructor on; RPFC, RPDAC, FMINDEX, HASHRPDAC, HASHRPF, Blocks are proved for every object whose dumped "
       "state passes a verified checker (the constructors' Re-Pair / suffix-sorting choices are validated per instance, not verified); "
       "XBW and HTFC likewise (XBW over plain-list bitmaps; HTFC rejects objects with an in-bucket shared prefix that is a multiple of 128: recorded "
       "finding), HHTFC and HASHHF likewise; RPHTFC and HASHUFFDAC are tied to the specification by correspondence only. "
       "RPFC theorems need strings shorter than 2^14 (the real code breaks on 3-byte VBytes: recorded defect). Known findings: known_findings.json.",
  technique="Coq proof (induction over the string list / bucket scan invariants) + extracted-model/implementation correspondence"),
 "C02": dict(
  text="Coq theorems: PFC model returns 0 for every non-member NUL-free query and NULL for every id outside [1,n] incl. ids >= 2^32 "
       "(pfc_no_false_positive, pfc_bad_id_null); the memory-error outcome of the model (any read outside the text / offset array or past "
       "the pattern's NUL) is unreachable for every query (pfc_locate_safe, pfc_extract_safe); double hashing: an absent key is never found, "
       "the probe loop terminates within tsize probes and never reads outside the table (dh_search_absent, dh_search_no_oob); XBW: locate of "
       "every absent pattern (the empty one included) is 0, extract of every id outside [1,n] is NULL, no read outside the arrays "
       "(C02_xbw_absent, C02_xbw_bad_id). Tie: all 13 "
       "kinds on boundary-directed absent queries (proof-directed splice family aimed at the scan's case split) and bad ids, each query in "
       "its own ASan process with an exact-size pattern buffer.",
  note="Bounds safety is a theorem for the PFC, RPFC, RPDAC, FM, XBW, HTFC, HHTFC, HASHHF and hashing models (checked reads); for the Hu-Tucker/Huffman kinds the ASan verdict of the explored queries is supporting "
       "evidence, not a proof.",
  technique="Coq proof (checked-read model: out-of-bounds is an unreachable outcome) + correspondence under ASan"),
 "C03": dict(
  text="Coq theorems: PFC extract(i) is the i-th smallest member and locate is strictly monotone (from pfc_extract_spec / pfc_locate_spec and "
       "the specification's order theorems); strcmp on the NUL-terminated text equals unsigned-byte lexicographic order (c_strcmp_spec). "
       "Tie: the seven order-preserving kinds + XBW rank operations compared with the specification on every id/rank.",
  note="Hu-Tucker alphabetic comparison (HTFC family) and the FM-index separator-rotated mapping are not modelled: correspondence against the "
       "specification only. XBW rank operations violate the property on the pinned tree (known finding).",
  technique="Coq proof + extracted-model/implementation correspondence"),
 "C04": dict(
  text="Coq theorems: the byte-exact PFC model of locateBoundaryBuckets (three binary searches), searchPrefix, searchDistinctPrefix, "
       "locatePrefix, IteratorDictIDContiguous and extractPrefix returns exactly range_of (spec_prefix_ids S p) / the matching strings for "
       "EVERY valid set, bucket size and pattern, the empty one included (C04_pfc_locate_prefix_every_pattern), (0,0) and a null iterator when nothing matches, with no read outside the "
       "dictionary (pfc_locate_prefix_spec, pfc_locate_prefix_ids, pfc_extract_prefix_spec); RPDAC: the three binary searches over "
       "compare-while-expanding on the grammar equal the specification (rpdac_locate_prefix_spec, over any well-formed grammar); FM-index: "
       "the interval of \\1 p shifted by the separator-rotated mapping equals the specification (fm_locatePrefix_spec, over any BWT passing "
       "the verified checker); XBW: subPathSearch returns exactly the nodes whose upward path starts with the reversed pattern and the "
       "interval handed to both prefix iterators is the sibling block below the pattern's node (C04_xbw_subPathSearch, "
       "C04_xbw_prefix_iterator_range; the BFS streams themselves: correspondence); specification: matching IDs of a sorted set are one contiguous ascending duplicate-free range. Tie: the "
       "eight prefix-capable kinds against the extracted specification on boundary-directed patterns; PFC also against the concrete model.",
  note="The RPHTFC copy of the PFC algorithm is tied by correspondence only; RPFC, HTFC and HHTFC have their own bit-exact models (C04_htfc_locate_prefix_spec: masked memcmp on encoded headers = prefix classification). The empty pattern is answered wrongly by RPDAC/FMINDEX/XBW (known finding empty-search-pattern). RPDAC and FM theorems are conditional on "
       "per-instance validated artefacts (grammar / BWT produced by the real constructors, checked by verified checkers in C20 / C05 runs).",
  technique="Coq proof (binary-search and scan invariants) + extracted-model/implementation correspondence"),
 "C05": dict(
  text="Coq theorems about an algorithm-exact model of SSA::locate / locateP / locate_id and StringDictionaryFMINDEX::locateSubstr over an "
       "abstract BWT: LF-mapping correctness, backward search returns exactly the rows whose suffix starts with the pattern, the LF walk "
       "to a sampled row or separator yields the ID of the containing string for every sampling step, and sort + IteratorDictIDDuplicates "
       "yields exactly spec_substr_ids (fm_locateSubstr_spec), for every text of the dictionary form whose (SA,BWT,occ,samples) pass the "
       "verified checker fm_check. Tie: the real object's BWT, occ, sample and separator arrays are dumped, checked by the extracted checker, "
       "and every query is answered by the model run on the dumped arrays, by the implementation and by the specification.",
  note="Suffix sorting / BWT construction and the wavelet tree / bitmap implementations are validated per instance (verified checker), not verified. "
       "extractSubstr string stream: iterator plumbing covered by correspondence only. XBW: specification only; XBW substring search does not "
       "work on the pinned tree (known finding).",
  technique="Coq proof (FM-index backward-search / LF invariants + verified checker) + correspondence"),
 "C06": dict(
  text="Proof obligations regenerated from the CURRENT source on every run (clang-AST translator -> Schema_gen.v): for each of 30 classes the "
       "ordered item list of load equals that of save (C06_mirror_K, count expressions included), the schema is well-formed (every count is "
       "a field saved earlier) and hence, by the generic theorem read_write / self_delimiting, a mirrored loader reads back what was written and "
       "consumes exactly the written bytes; dispatcher table routes every tag to the loader guarding that tag, complete and duplicate-free. "
       "Tier-A instance: pfc_load_save on the byte-exact PFC image (self-delimiting, reloads to the same value, answers equal the spec). "
       "Tie: all 13 kinds x {generic loader, own loader with a second image appended (tellg), load options} x all queries vs original and spec.",
  note="Trusted additionally: the translator and the size assumption on saveValue/loadValue. 'State that exists only after load' and nested libcds "
       "sequences (SSA's wavelet tree) are covered by correspondence only (schema_fallback list is pinned by a theorem).",
  technique="translator-regenerated Coq obligations + generic round-trip theorem + correspondence"),
 "C07": dict(
  text="Coq theorems: (a) capacity bookkeeping of the PFC constructor: with the growth check of the current source (bytes + 2*len + 6) every "
       "write index is below the reservation at the time of the write, for every length/lcp sequence and initial reservation; the old "
       "check (2*len) is refuted by a valid 13124-string input (C07_cap_ok_fixed, C07_cap_refuted_strings) and the source's check expression is "
       "tied to the theorem on every run; the same for EVERY other Reallocate site and scratch buffer (RPFC/RPHTFC Re-Pair input buffer and "
       "compressed text incl. the closed form of what encodeSymbol touches, HTFC/HHTFC, HASHHF incl. its trailing bytes, tmp/dec buffers): 28 "
       "theorems C07_cap2_* for every string list, bucket size, reservation >= 1 and ANY code table with codewords <= 32 bits, the pre-fix checks "
       "refuted by witnesses that were replayed on the real code, 33 normalised source expressions compared on every run (cap2_checks); (b) every read of the Tier-A models (PFC locate/extract/prefix/table, hashing probe loop, DAC access, "
       "RG rank/select, RPDAC and FM searches, ID iterators incl. the duplicate iterator's sentinel) stays in bounds and every loop terminates "
       "within its fuel for EVERY query (the out-of-bounds outcome is unreachable); (c) scratch buffers sized from maxlength hold every member "
       "plus NUL. Runtime part: all 13 kinds built with the MEMALLOC hook shrunk to 16 bytes, queried, saved, loaded, destroyed under ASan; "
       "capacity-witness, boundary (Capacity2) and large-input corpus with the default and the shrunk reservation.",
  note="PARTIAL: use-after-free, double free, uninitialised reads and overruns in code that is not modelled are sanitizer-validated on explored "
       "inputs only. Hook: LIBCSD_VERIF_MEMALLOC (guarded by LIBCSD_VERIF).",
  technique="Coq proof (capacity accounting, checked-read models) + ASan-instrumented correspondence runs as supporting evidence"),
 "C14": dict(
  text="Coq theorems: the answers of the concrete models depend only on (S, query): any two PFC objects with the layout of S (any bucket sizes, "
       "built or reloaded) answer alike (C14_pfc_any_copy_answers_alike) and equal the specification, likewise RPDAC / FM / hashing via their "
       "specification theorems; the PFC comparison never writes and never reads the pattern past its NUL. Tie: every query on a pristine "
       "object, then a 150-250 call history in one process (shuffled repeats, failed lookups, descending/zig-zag id walks, up to three "
       "iterators open at once drained round-robin), then every query again: all answers equal each other and the specification; pattern "
       "buffers (exact-size heap blocks) compared before/after each call.",
  note="PARTIAL: history independence of the kinds without a concrete model and restoration of the caller's pattern by RePair::extractStringAndCompareRP "
       "are correspondence only.",
  technique="Coq proof (functional models: purity by construction + specification equality) + history-based correspondence"),
 "C19": dict(
  text="Coq theorems: plain rank/select/access laws; a word-exact model of BitSequenceRG (popcount table, superblock counters Rs, the "
       "(1<<k)-1 mask incl. k = 31, binary search + word + bit scan of select) equals the plain definitions for EVERY bit vector "
       "(n < 2^32-64) and factor >= 1: rank1, rank0, access, select1, select0 with their out-of-range answers, no out-of-bounds read, "
       "save/load round trip (C19_rg_*); pointer wavelet tree access/rank/select equal the sequence definitions over any bitmap meeting the "
       "plain laws and any symbol-separating code, instantiated with the RG model and with the RRR model; a word-exact model of "
       "BitSequenceRRR and its offset table (class/offset encoding, sampling, the byte view of C in rank1, binary-search select) equals the "
       "plain definitions for every bit vector 1 <= n < 2^32 and every sample rate, with no out-of-bounds access (C19_rrr_*; the pre-fix "
       "allocation and a seeded sampling change are refuted). Tie: real RG/RRR/SDArray/DArray bitmaps and "
       "WaveletTree/WaveletTreeNoptrs sequences vs the plain definitions, RG and RRR also at layout level (Rs, data / C, O, samplings, image bytes); "
       "two wavelet trees side by side.",
  note="SDArray, DArray, WaveletTreeNoptrs: no concrete model (Tier C, partial). Huffman shape validated per instance. Known findings: "
       "BitSequenceDArray without ones, WaveletTreeNoptrs over the single symbol 0.",
  technique="Coq proof (induction on superblocks / tree) + correspondence"),
 "C08": dict(
  text="Regenerated obligations: no save body changes state except the listed finding (C08_save_pure), the tag word comes from a stable source in "
       "every class (C08_tag_stable_K; the unstable list is proved empty), nested saver arguments are pinned. Tier-A: pfc_save is a function of the "
       "value, re-saving the reloaded PFC reproduces the image byte for byte (pfc_resave_identical, pfc_build_image_deterministic). Tie: all 13 "
       "kinds: answers before/after save, second save, second independent build, whole run repeated under a different heap fill pattern (no "
       "uninitialised byte in any image), load -> save -> load equivalence.",
  note="Byte-level determinism of the kinds other than PFC is correspondence only (partial). Known findings: re-saving HASHHF/HASHRPF objects loaded "
       "with the compact hash representations, re-saving a loaded XBW.",
  technique="translator-regenerated Coq obligations + Coq proof (PFC image) + correspondence with heap-fill perturbation"),
 "C12": dict(
  text="Coq theorems: every PFC answer (locate, extract, table, prefix range) is independent of the bucket size because each equals the "
       "parameter-free specification; a bucket size below 2 yields the very same dictionary value as 2 (pfc_bucket_clamp); hashing: insertion "
       "succeeds and search finds every key for every prime table size >= n (dh_insert_succeeds, nearest_prime_spec: result >= n and prime, "
       "probe sequence visits all cells), the three hash-table representations chosen at load answer identically (hash_repr_equiv); FM sampling "
       "step never changes locateSubstr (fm_locateSubstr_spec is step-independent); block cut size / thread count: C09. Tie: same S built under "
       "parameter vectors from the grid (incl. odd bitmap samplings), every answer compared with the specification (hence pairwise). Regenerated "
       "obligations (clang typed AST of the current source): every arithmetic node of the probe expressions is 64 bits wide, hence the machine "
       "value equals the mathematical probe position for tables below 2^32 cells (C12_probe_is_mathematical; a 32-bit product is refuted); "
       "nearly-full tables of 200 003 keys (10^6 when an obligation breaks) with every key located.",
  note="sqrt(double) in nearest_prime modelled by an integer square root; kinds other than PFC/hashing protocol: correspondence only.",
  technique="Coq proof (corollaries of the per-kind specification theorems) + correspondence over a parameter grid"),
 "C13": dict(
  text="Coq theorems: IteratorDictStringPFC started in any bucket at any in-bucket offset yields exactly the requested slice of S and stops "
       "(iter_scan_spec, pfc_extract_table_spec, iter_range_spec), IteratorDictIDContiguous yields l..r and nothing for (0,0) incl. the size_t "
       "wrap (contig_ids_spec), RPDAC table/prefix iterators (rpdac_table_spec), the duplicate-skipping ID iterator with its 0 sentinel (used by "
       "fm_locateSubstr_spec). Tie: extractTable of 12 kinds = extract(1..n); every string/ID iterator drained with hasNext, reported length = "
       "strlen, NUL-terminated, no runaway.",
  note="Iterators of RPFC/HT*/FMINDEX strings/XBW/hash materialised tables: correspondence only.",
  technique="Coq proof (iterator state-machine invariants) + correspondence"),
 "C16": dict(
  text="Regenerated obligations: the generic loader returns NULL for every one of the 2^32 tags outside the dispatch table (C16_unknown_tag / "
       "C16_unknown_image, membership argument over the table extracted from the current source), every dictionary loader starts with a guard "
       "returning NULL, guards are pairwise distinct so each loader refuses every other kind's image (C16_all_guarded, C16_foreign_image, "
       "C16_guards_distinct); PFC model: pfc_load rejects a foreign tag / short image. Tie: every unsupported operation of every kind returns "
       "null/0 and supported queries still answer; 20+ unknown tags and 12 foreign loaders per image.",
  note="Which operations a kind supports is the oracle's hand-written table; stubs are tied by correspondence.",
  technique="translator-regenerated Coq obligations + correspondence"),
 "C18": dict(
  text="Coq theorems: codes read off any binary tree are prefix-free and complete (Kraft equality), ordered trees give alphabetic codes and "
       "alphabetic codes make encoded strings compare like the strings (what HTFC's memcmp relies on), unique decodability; verified checkers "
       "for stored (codeword,bits) tables; bit-exact model of StatCoder::encodeSymbol with round trip from any bit offset (C18_bit_roundtrip); "
       "Hu-Tucker recombination phase (stack algorithm and its array-level refinement) is sound; one chunk-table step equals the corresponding "
       "bit steps. Tie: REAL HuTucker/Huffman tables checked by the extracted checkers, real recombination vs model, real packing vs model, "
       "real chunk table round trips.",
  note="Hu-Tucker combination/level assignment, createHuff and the decoding-table builder are validated per instance, not verified; coverage of the "
       "data-dependent chunk table is not modelled (and is violated by the HT-family dictionaries: known finding).",
  technique="Coq proof (code theory, verified checkers, bit-level packing) + correspondence"),
 "C09": dict(
  text="Coq theorems over ALL interleavings and any worker count: the slot protocol of the block constructor (slot reserved under the mutex "
       "before the task is queued, worker writes its own slot, constructor waits for parts_done = |parts|) yields parts = map build_block "
       "blocks in input order in every final state, no slot written twice (parbuild_deterministic, parbuild_wait_sound); the cutting loop "
       "partitions S exactly, in order, into non-empty blocks whose first strings are the samples (partition_spec). Tie: real 2-thread block "
       "dictionaries vs the model's partition; image bytes for 1,2,3,8 threads identical.",
  note="Purity of the per-block builder is a Section hypothesis (validated by C11). Real thread interleavings are sampled.",
  technique="Coq proof (invariant over arbitrary schedules of an LTS) + correspondence"),
 "C10": dict(
  text="Coq theorems over ALL schedules (incl. spurious wake-ups), any number of workers and tasks, about an LTS with one program counter "
       "per atomic step of Worker::run / add_task / stop_all_workers: task conservation and exactly-once execution (pool_conservation, "
       "pool_exactly_once_safety), pop never sees an empty queue, deadlock freedom of the current (fixed) skeleton "
       "(pool_deadlock_free_fixed), and the lost wake-up of the pinned skeleton as a reachable stuck state (pool_lost_wakeup_reachable). "
       "Tie: the variant is read from the current Worker.hpp; the real pool is run for W x tasks x seeded delays and compared with the LTS.",
  note="Termination needs scheduler fairness (assumed). The race window of the pinned skeleton is a few instructions wide: on the real code it is "
       "exhibited by the model's witness schedule, not reproduced deterministically (no scheduling hook in /repo).",
  technique="Coq proof (inductive invariants over an interleaving semantics) + correspondence"),
 "C11": dict(
  text="Coq theorems over all schedules: mutual exclusion on shared_mutex, pop/unlock/block only by its owner, every push and stop-flag write "
       "of the current skeleton under shared_mutex (pool_mutual_exclusion, pool_lockset); disjoint slot writes in the parallel build. "
       "Runtime part: ThreadSanitizer build of the working tree running the real pool and real multi-threaded block builds.",
  note="PARTIAL: data races inside code that is not in the model (Re-Pair coder, libcds builders, iostream) are TSan-validated on explored "
       "schedules only; no Gallina model can exhibit them.",
  technique="Coq proof (lockset invariant) + ThreadSanitizer runs as supporting evidence"),
 "C15": dict(
  text="Coq theorems: the PFC constructor's counters: elements = n, maxlength = longest + 1, every member strictly shorter than maxlength "
       "(pfc_metadata); specification-level bounds (spec_maxlen attained and bounding). Tie: numElements / maxLength of all 13 kinds, fresh "
       "and reloaded through both loaders, against n and [longest, longest+1], and the longest member must extract intact.",
  note="Counting loops of the other constructors are not modelled: correspondence only.",
  technique="Coq proof + correspondence"),
 "C17": dict(
  text="Coq theorems (closed under the global context) for bit-exact models of VByte encode/decode, LogSequence get_field/set_field for every "
       "width 1..64 incl. straddling fields, frame properties, vector constructor and save/load; the libcds 32-bit primitives the DACs are built on "
       "(get_field/set_field/get_var_field/bits/uint_len for every len <= 32 incl. 0, 32 and word-straddling fields; no shift count >= 32 is "
       "ever evaluated; stores in any order give the packed array); DAC_VLS / DAC_BVLS constructor layout, access / access_next = the stored "
       "sequence for every index, first over list-level packing and then over the concrete 32-bit words and BitSequenceRG "
       "(C17_dac_access_spec_concrete), byte-exact save/load; model tied to the working tree by line-by-line "
       "correspondence of the extracted model with the implementation on boundary-directed cases; property also evaluated directly on the "
       "implementation's outputs.",
  note="x86-64 shift semantics written into the model (and proved never to be exercised for len <= 32). DAC inputs: sequences of symbols below "
       "2^32 as the callers produce them (dac_wf_c).",
  technique="Coq proof (N.testbit extensionality, induction) + extracted-model/implementation correspondence"),
 "C20": dict(
  text="Coq theorems: abstract nondeterministic Re-Pair (ANY pair without 0, ANY set of non-overlapping occurrences) is lossless for any number "
       "of steps, never puts 0 into a rule, rules refer backwards (expansion terminates), reported bits suffice (rp_run_valid); verified "
       "checker check_grammar sound and complete; exact models of the packed rule table, expandRule, the callers' gap-following compaction "
       "loop and grammar save/load with round-trip theorems. Tie: the REAL compressor is run as the constructors call it; its grammar is "
       "checked by the extracted checker and re-derived line by line by the model.",
  note="The heap/hash/linked-list machinery of IRePair.cpp (which pair, which occurrences) is not modelled: validated per instance by the verified checker.",
  technique="Coq proof (invariants of a nondeterministic algorithm + verified checker) + correspondence"),
}

PLANNED = {
}


def main():
    checks = []
    for pid in sorted(CLAIMS):
        c = CLAIMS[pid]
        checks.append({
            "property_id": pid,
            "quick_cmd": "python3 tools/check.py %s --tier quick" % pid,
            "thorough_cmd": "python3 tools/check.py %s --tier thorough" % pid,
            "evidence_file": "evidence/%s.json" % pid,
            "replay_cmd_template": "python3 tools/check.py %s --replay {path}" % pid,
            "engine": "coq-proof+correspondence",
            "level_claimed": {"category": "proof", "text": c["text"], "design_ref": "DESIGN.md §4 %s, §10" % pid},
            "level_note": TRUST + c["note"],
            "technique": c["technique"],
        })
    na = [{"property_id": p, "reason": r + " in this round (see DESIGN.md §4); not claimed until its proof and correspondence run"}
          for p, r in sorted(PLANNED.items()) if p not in CLAIMS]
    hooks_commits = ["39586e8 verif hook: MEMALLOC overridable under LIBCSD_VERIF (LIBCSD_VERIF_MEMALLOC)"]
    m = {
        "version": 1,
        "setup_cmd": "sh tools/setup.sh",
        "hooks": {
            "guard": "LIBCSD_VERIF",
            "enable": "checks compile /repo's sources directly with -DLIBCSD_VERIF (tools/buildlib.py); no repo build system involved; "
                      "private state is read through '#define private public' in the driver; the only source hook is LIBCSD_VERIF_MEMALLOC (C07 builds with -DLIBCSD_VERIF_MEMALLOC=16)",
            "baseline_off_cmd": "cmake -G Ninja -S /repo -B /repo/_build >/dev/null && cmake --build /repo/_build >/dev/null && ctest --test-dir /repo/_build -j8 --timeout 900",
            "source_commits": hooks_commits,
            "add_only": True,
        },
        "engines": [{
            "name": "coq-proof+correspondence", "path": "tools/check.py", "serves_properties": sorted(CLAIMS),
            "kind_free_text": "Coq 8.16 theorems about hand-written Gallina models (coq/theories), tied to /repo by a correspondence check: "
                              "extracted OCaml oracle vs C++ driver linked against the working tree (ASan / TSan)"}],
        "checks": checks,
        "not_applicable": na,
        "notes": "See DESIGN.md. fix: commits in /repo are listed in known_findings.json (fixed entries); open findings there.",
    }
    with open(os.path.join(VERIF, "MANIFEST.json"), "w") as f:
        json.dump(m, f, indent=1)
    print("claimed:", " ".join(sorted(CLAIMS)), "| not claimed:", " ".join(x["property_id"] for x in na))


if __name__ == "__main__":
    main()
